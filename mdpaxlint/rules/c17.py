"""C17 - explicit matrices describe the same MDP as the functional description."""

from __future__ import annotations

import ast

from ..cfg import cfg_of
from ..interp import Interp, Unsupported, fresh
from ..loader import AnalysisError, norm_text
from ..terms import K, S, T_mul, T_sub, T_sum, alpha_norm, show_norm, subst, subterms
from .common import Context, backing_attr, calls_in
from .solverterms import brief, same

PROP = "C17"
EXPLANATION = (
    "Problem.build_transition_and_reward_matrices is abstractly interpreted with symbolic spaces and "
    "leaf transition / probability / index functions; the double loop over events and actions becomes a "
    "nested fold whose one symbolic step is exposed.  Decided: the step accumulates (scatter-ADD, not "
    "overwrite) p(s,a,e) into P[a, s, state_to_index(next(s,a,e))] for all s at once, starting from zeros "
    "of shape (A,S,S), so several events leading to the same successor add up; R[s,a] is "
    "sum_e p(s,a,e)*r(s,a,e) with the [S,A,E] axis order agreeing between the two triple-vmap nests; the "
    "ValueError is raised when max|row sum - 1| exceeds the tolerance, before the normalising division "
    "and the return, and its message interpolates both the state and the action; what is returned is that "
    "P divided by its row sums, and that R.  Does not decide agreement of solutions with an independent solver."
    ' Also decides (R17.5) that the builder does not walk the events in fixed-size blocks cut by a clamping dynamic_slice from an operand that is not padded to whole blocks.'
)
RULES = {
    "R17.1": "R == [s -> [a -> sum_e p(s,a,e) * r(s,a,e)]] (axes [S,A,E] agree across the vmap nests; sum over the event axis)",
    "R17.2": "P == fold over events and actions of scatter-ADD p(s,A[a],E[e]) at [a, s, state_to_index(next(s,A[a],E[e]))], from zeros((A,S,S))",
    "R17.3": "ValueError iff max|row sums - 1| > tolerance; the check dominates normalisation and return; the message names state and action",
    "R17.5": "every event is accumulated exactly once: when the builder walks the events in fixed-size blocks cut with lax.dynamic_slice / dynamic_slice_in_dim at i * B inside a loop of ceil(E / B) blocks, the operand must have been padded to whole blocks - dynamic_slice CLAMPS a start that would overrun, so an unpadded last block overlaps the previous one and its events are added twice (expected count zero on today's tree: the builder loops over single events)",
    "R17.4": "returned P is the accumulated P divided by its row sums (guarded against zero); returned R is the expected reward",
}
ASSUMPTIONS = [
    "jnp .at[].add accumulates duplicate indices; vmap nests produce axes in nesting order",
]


def run(ctx: Context, col) -> None:
    cls = ctx.ct.get("Problem")
    owner, fn = ctx.ct.require(cls, "build_transition_and_reward_matrices")
    file = owner.module.relpath
    SS, AS, ES = S("problem.state_space"), S("problem.action_space"), S("problem.random_event_space")
    nS, nA, nE = ("app", "len", (SS,)), ("app", "len", (AS,)), ("app", "len", (ES,))
    I = Interp(ctx.ct, cls, {
        backing_attr(ctx, cls, "state_space"): SS, backing_attr(ctx, cls, "action_space"): AS, backing_attr(ctx, cls, "random_event_space"): ES,
        "transition": ("leaf", "problem.transition"),
        "random_event_probability": ("leaf", "problem.random_event_probability"),
        "state_to_index": ("leaf", "problem.state_to_index"),
    })
    I.axis_sizes = {"state": {nS}, "act": {nA}, "ev": {nE}}
    # `if self.X is not None: return self.X` in front of the construction, X assigned further down: a result stored by an earlier call is
    # handed back.  The term rules are decided for a first call (X still None); R17.3 reports the return that skips this call's check.
    stored_attr = None
    params_ = {a.arg for a in fn.args.args[1:]}
    for st_ in fn.body:
        if isinstance(st_, ast.If) and st_.body and isinstance(st_.body[-1], ast.Return) and isinstance(st_.body[-1].value, ast.Attribute) \
                and isinstance(st_.body[-1].value.value, ast.Name) and st_.body[-1].value.value.id == "self" \
                and not any(isinstance(n_, ast.Name) and n_.id in params_ for n_ in ast.walk(st_.test)):
            x_ = st_.body[-1].value.attr
            if any(isinstance(n_, ast.Attribute) and isinstance(n_.ctx, ast.Store) and n_.attr == x_ and isinstance(n_.value, ast.Name) and n_.value.id == "self"
                   for n_ in ast.walk(fn)):
                stored_attr = x_
                from ..terms import NONE as _NONE
                I.attrs[x_] = _NONE
    _block_slices(fn, file, col)
    TOL = S("TOL")
    try:
        t = I.call_method("build_transition_and_reward_matrices", [TOL])
    except Unsupported as e:
        raise AnalysisError(f"Problem.build_transition_and_reward_matrices: {e}") from e
    construct = "Problem.build_transition_and_reward_matrices"
    stored_return = S(f"self.{stored_attr}") if stored_attr else None
    if t[0] == "ite" and (t[2][0] == "tuple") != (t[3][0] == "tuple"):
        # one branch hands back something that is not built in this call (e.g. matrices stored by an earlier call): the term rules
        # below are decided for the branch that builds, and R17.3 reports the return that bypasses this call's row-sum check
        stored_return = t[3] if t[2][0] == "tuple" else t[2]
        t = t[2] if t[2][0] == "tuple" else t[3]
    if t[0] != "tuple" or len(t[1]) != 2:
        raise AnalysisError("matrix builder does not return (P, R)")
    Pret, Rret = t[1]

    def leaf(name, s, a, e):
        return ("app", name, (I.elem(SS, s), I.elem(AS, a), I.elem(ES, e)))

    # ---- R17.1
    s, a, e = fresh("state"), fresh("act"), fresh("ev")
    rew = ("app", "reward", (leaf("problem.transition", s, a, e),))
    want_R = ("lam", s, "state", ("lam", a, "act", T_sum(e, "ev", T_mul(leaf("problem.random_event_probability", s, a, e), rew))))
    ok1 = same(Rret, want_R)
    col.add("R17.1", construct, file, fn.lineno, ok1,
            "R[s,a] == sum_e p(s,a,e) * r(s,a,e)" if ok1 else f"R is {brief(Rret, 300)}", text="expected reward term")

    # ---- R17.2: locate the fold
    folds = [x for x in subterms(Pret) if x[0] == "fold"]
    outer = [f for f in folds if f[3][0] == "app" and f[3][1] == "zeros"]
    undecided = None
    ok2, why2 = False, "no nested fold over events and actions starting from zeros((A,S,S))"
    Pacc = None
    if outer:
        f1 = outer[0]
        Pacc = f1
        init = f1[3]
        ok_init = init == ("app", "zeros", (("tuple", (nA, nS, nS)),))
        f2 = f1[4]
        if not (f2[0] == "fold" and f2[3] == f1[5]):
            # an accumulation from zeros exists, but not as the event x action double loop this rule can read term by term
            # (e.g. one broadcast scatter per event): neither equality nor difference with the documented sum can be shown.
            # The rules about the row-sum check and the normalisation do not depend on it and are still decided below.
            undecided = ("Problem.build_transition_and_reward_matrices: P is accumulated from zeros, but not by a loop over events "
                         f"and actions with one scatter-add each (one step is {brief(f2, 160)}); R17.2 cannot be decided")
        if f2[0] == "fold" and f2[3] == f1[5]:
            v1, c1, v2, c2 = f1[1], f1[2], f2[1], f2[2]
            step = f2[4]
            cur = f2[5]
            counts = {c1, c2}
            if counts == {nE, nA}:
                ev_ix, act_ix = (v1, v2) if c1 == nE else (v2, v1)
                s2 = fresh("state")
                idx = ("app", "problem.state_to_index", (("app", "next_state", (leaf("problem.transition", s2, act_ix, ev_ix),)),))
                want_step = ("atadd", cur,
                             ("tuple", (act_ix, ("app", "arange", (nS,)), ("lam", s2, "state", idx))),
                             ("lam", s2, "state", leaf("problem.random_event_probability", s2, act_ix, ev_ix)))
                if same(step, want_step):
                    ok2 = ok_init
                    why2 = ("P[a, s, idx(next(s,a,e))] += p(s,a,e) for every (e, a), from zeros((A,S,S))" if ok_init else
                            f"accumulation starts from {show_norm(init)}, not zeros((A,S,S))")
                elif any(x[0] == "app" and x[1] == "reshape" and any(y[0] in ("shape",) or (y[0] == "app" and y[1].startswith("shape")) for y in subterms(x))
                         for x in subterms(step)):
                    # a generic flatten / unflatten through the array's own shape is outside the kernel IR: no verdict either way
                    undecided = ("Problem.build_transition_and_reward_matrices: the accumulation step reshapes an array through its own "
                                 "runtime shape (flatten / unflatten idiom), which the kernel IR does not follow; R17.2 cannot be decided")
                elif step[0] == "scatter":
                    why2 = "probabilities are written with .set: two events leading to the same successor overwrite each other instead of adding up"
                else:
                    why2 = f"one step of the accumulation is {brief(step, 300)}"
            else:
                why2 = f"loops run over {[show_norm(c) for c in (c1, c2)]}, expected every event and every action"
    if undecided is None:
        col.add("R17.2", construct, file, fn.lineno, ok2, why2, text="scatter-add accumulation")

    # ---- R17.3
    guards = [g for g in I.guards if g[1].startswith("ValueError")]
    ok3, why3 = False, "no ValueError guard on the row sums"
    if Pacc is not None and guards:
        rows = ("app", "sum", (Pacc, ("kw", "axis", K(-1))))
        dev = ("app", "max", (("app", "abs", (T_sub(rows, K(1)),)),))
        want_c = ("app", "cmpLt", (TOL, dev))
        # max|x| > tol  <=>  any(|x| > tol)
        absdev = ("app", "abs", (T_sub(rows, K(1)),))
        alt_c = I.reduce("any", I.compare("Gt", absdev, TOL))
        hit = [g for g in guards if g[0] in (want_c, alt_c)]
        if hit:
            ok3, why3 = True, "raises ValueError iff max|row sum - 1| > tolerance"
        else:
            why3 = f"guard condition is {brief(guards[0][0], 200)}"
    elif Pacc is not None:
        why3 = "the row-sum check is gone: matrices with rows that do not sum to one are silently renormalised"
    # dominance + message
    g = cfg_of(fn)
    raises = [n for n in g.stmts() if isinstance(n.ast, ast.Raise)]
    rets = [n for n in g.stmts() if isinstance(n.ast, ast.Return)]
    norm_nodes = [n for n in g.stmts() if isinstance(n.ast, ast.Assign) and any(isinstance(x, ast.BinOp) and isinstance(x.op, ast.Div) for x in ast.walk(n.ast.value))
                  and any(isinstance(t_, ast.Name) and t_.id == "P" for t_ in n.ast.targets)]
    if ok3:
        tests = [n for n in g.stmts() if n.kind == "test" and any(isinstance(s_, ast.Raise) or any(isinstance(y, ast.Raise) for y in ast.walk(s_)) for s_ in n.ast.body)]
        dom_ok = bool(tests) and all(g.dominates(tests[0], n) for n in norm_nodes + rets) and bool(rets)
        # the offending pair, as terms: (action, state) = unravel_index(argmax |row sums - 1|, shape(row sums)) - axes [A, S] -
        # and the message interpolates component 1 after "state " and component 0 after "action "
        unr = ("app", "np.unravel_index", (("app", "argmax", (("app", "abs", (T_sub(rows, K(1)),)),)), ("shape", rows)))
        msg_ok = loc_ok = False
        for r_ in raises:
            m = I.raise_terms.get(r_.ast.lineno)
            if m is None or m[0] != "app" or m[1] != "fstring":
                continue
            parts = m[2]
            pos = {}
            for k in range(1, len(parts)):
                p_, prev = parts[k], parts[k - 1]
                while p_[0] == "app" and p_[1] in ("int", "float", "item", ".item") and len(p_[2]) == 1:
                    p_ = p_[2][0]  # int(x) / float(x) of the index: the same index
                if p_[0] == "elem" and len(p_[2]) == 1 and p_[2][0] in (K(0), K(1)) and prev[0] == "const" and isinstance(prev[1], str):
                    word = prev[1].rstrip().rsplit(" ", 1)[-1].lower()
                    pos[word] = (p_[1], p_[2][0])
            if "state" in pos and "action" in pos:
                msg_ok = pos["state"][1] == K(1) and pos["action"][1] == K(0)
                loc_ok = pos["state"][0] == unr and pos["action"][0] == unr
        if stored_return is not None and not dom_ok:
            ok3, why3 = False, (f"one return hands back `{show_norm(stored_return)[:60]}`, which is not built in this call, without this call's row-sum check: "
                                "matrices stored by an earlier call with a looser tolerance are returned where this call must raise ValueError")
        elif not dom_ok:
            ok3, why3 = False, "the row-sum check does not dominate the normalisation / return"
        elif not msg_ok:
            ok3, why3 = False, "the error message does not name the offending pair as `state {<axis-1 index>}` and `action {<axis-0 index>}`"
        elif not loc_ok:
            ok3, why3 = False, "the offending pair is not located by unravel_index(argmax|row sums - 1|, <row sums>.shape)"
    col.add("R17.3", construct, file, (raises[0].lineno if raises else fn.lineno), ok3, why3, text="row-sum error")

    # ---- R17.4
    ok4 = False
    why4 = "returned P is not the accumulated P divided by its row sums"
    if Pacc is not None:
        rows = ("app", "sum", (Pacc, ("kw", "axis", K(-1))))
        rows3 = ("app", "reshape", (rows, nA, nS, K(1)))
        denom = ("app", "where", (("app", "cmpLt", (K(0), rows3)), rows3, K(1)))
        from ..terms import T_truediv
        want_P = T_truediv(Pacc, denom)
        ok4 = Pret == want_P and same(Rret, want_R)
        if ok4:
            why4 = "returns (P / where(row sums > 0, row sums, 1), R)"
    col.add("R17.4", construct, file, (rets[0].lineno if rets else fn.lineno), ok4, why4, text="returned matrices")
    if undecided is not None:
        raise AnalysisError(undecided)
    for r_ in ("R17.1", "R17.2", "R17.3", "R17.4"):
        col.floor(r_, 1)


def _is_ceil_div(e, b_name) -> bool:
    """-(-E // B), (E + B - 1) // B, math.ceil(E / B), with B the name b_name"""
    def is_b(x):
        return isinstance(x, ast.Name) and x.id == b_name
    if isinstance(e, ast.UnaryOp) and isinstance(e.op, ast.USub):
        v = e.operand
        if isinstance(v, ast.BinOp) and isinstance(v.op, ast.FloorDiv) and is_b(v.right) and isinstance(v.left, ast.UnaryOp) and isinstance(v.left.op, ast.USub):
            return True
    if isinstance(e, ast.BinOp) and isinstance(e.op, ast.FloorDiv) and is_b(e.right):
        txt = ast.unparse(e.left).replace(" ", "")
        return f"+{b_name}-1" in txt or f"-1+{b_name}" in txt or txt.startswith(f"{b_name}-1+") or txt.startswith(f"{b_name}+") and txt.endswith("-1")
    if isinstance(e, ast.Call) and ast.unparse(e.func) in ("math.ceil", "np.ceil", "jnp.ceil", "ceil") and e.args:
        a = e.args[0]
        return isinstance(a, ast.BinOp) and isinstance(a.op, ast.Div) and is_b(a.right)
    if isinstance(e, ast.Call) and ast.unparse(e.func) == "int" and e.args:
        return _is_ceil_div(e.args[0], b_name)
    return False


def _block_slices(fn, file, col):
    """R17.5 - see RULES.  Purely structural: the loop body is a nested function handed to fori_loop / scan / map."""
    assigns = {}
    for st in ast.walk(fn):
        if isinstance(st, ast.Assign) and len(st.targets) == 1 and isinstance(st.targets[0], ast.Name):
            assigns.setdefault(st.targets[0].id, []).append(st.value)
    n_checked = 0
    for inner in [n for n in ast.walk(fn) if isinstance(n, (ast.FunctionDef, ast.Lambda)) and n is not fn]:
        params = [a.arg for a in inner.args.args]
        local = {}
        for st in ast.walk(inner):
            if isinstance(st, ast.Assign) and len(st.targets) == 1 and isinstance(st.targets[0], ast.Name):
                local[st.targets[0].id] = st.value
        for c in ast.walk(inner):
            if not (isinstance(c, ast.Call) and ast.unparse(c.func).split(".")[-1] in ("dynamic_slice_in_dim", "dynamic_slice")):
                continue
            n_checked += 1
            if ast.unparse(c.func).endswith("dynamic_slice_in_dim") and len(c.args) >= 3:
                operand, start, size = c.args[0], c.args[1], c.args[2]
            else:
                continue  # general dynamic_slice: start / size tuples, not followed
            if isinstance(start, ast.Name) and start.id in local:
                start = local[start.id]
            if not (isinstance(size, ast.Name) and isinstance(start, ast.BinOp) and isinstance(start.op, ast.Mult)):
                continue
            b = size.id
            idx = start.left if (isinstance(start.right, ast.Name) and start.right.id == b) else start.right if (isinstance(start.left, ast.Name) and start.left.id == b) else None
            if not (isinstance(idx, ast.Name) and idx.id in params):
                continue
            # the trip count of the loop that runs `inner`
            name = getattr(inner, "name", None)
            loops = [k for k in ast.walk(fn) if isinstance(k, ast.Call) and ast.unparse(k.func).split(".")[-1] in ("fori_loop", "scan", "map")
                     and any(isinstance(a, ast.Name) and a.id == name for a in k.args)]
            ceil = False
            for k in loops:
                for a in k.args:
                    e = a
                    if isinstance(e, ast.Name) and e.id in assigns and len(assigns[e.id]) == 1:
                        e = assigns[e.id][0]
                    if isinstance(e, ast.Call) and ast.unparse(e.func).split(".")[-1] == "arange" and e.args:
                        e = e.args[0]
                        if isinstance(e, ast.Name) and e.id in assigns and len(assigns[e.id]) == 1:
                            e = assigns[e.id][0]
                    if _is_ceil_div(e, b):
                        ceil = True
            if not ceil:
                continue
            padded = isinstance(operand, ast.Name) and any(
                isinstance(v, ast.Call) and any(w in ast.unparse(v.func) for w in ("pad", "concatenate", "hstack", "vstack", "append"))
                for v in assigns.get(operand.id, []))
            if padded:
                raise AnalysisError(f"build_transition_and_reward_matrices: `{ast.unparse(c)[:70]}` cuts blocks from `{operand.id}`, which is padded first; whether the padding "
                                    "completes the last block and stays out of the sums is not decided (R17.5)")
            col.add("R17.5", "Problem.build_transition_and_reward_matrices", file, c.lineno, False,
                    f"`{ast.unparse(c)[:90]}` cuts block {idx.id} at {idx.id} * {b} from an operand that is not padded to whole blocks, in a loop of ceil(len / {b}) blocks: "
                    f"dynamic_slice clamps the start of the last block to len - {b}, so when {b} does not divide the number of events the overlapped events are accumulated twice",
                    text="block slices")
    col.add("R17.5", "Problem.build_transition_and_reward_matrices", file, fn.lineno, True,
            f"{n_checked} dynamic_slice call(s) in the builder examined: no unpadded block walk", text="block slices scanned")
