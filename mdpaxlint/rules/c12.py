"""C12 - checkpoint cadence and retention follow frequency and max_checkpoints."""

from __future__ import annotations

import ast

from ..cfg import cfg_of
from ..effects import is_self_attr
from ..loader import AnalysisError, norm_text
from .common import Context, SolveLoop, calls_in, deref, fmt_path, parents_of, self_call_name, stmt_text

PROP = "C12"
EXPLANATION = (
    "Decides, for all five solve() bodies and the checkpoint mixin, the structural clauses behind "
    "cadence and retention: the periodic save is guarded by exactly `enabled and iteration % "
    "checkpoint_frequency == 0`; a final save (alone or under the enabled-guard) lies on every path "
    "from the loop to the return; config.max_checkpoints and the async flag reach "
    "CheckpointManagerOptions(max_to_keep=, enable_async_checkpointing=) through the three call "
    "hops by position and keyword; the `checkpoint_frequency == 0` early return dominates every "
    "file-system effect of the set-up; config.yaml is written iff has_full_config; and nothing but "
    "the four known sites touches the checkpoint directory.  Does not decide which step directories "
    "exist after Orbax's own garbage collection."
    ' Also decides (R12.10) that nothing but checkpoint_frequency and max_checkpoints governs which steps are written and kept: the Orbax manager options are exactly max_to_keep / create / enable_async_checkpointing (a frozen table names the options that change cadence or retention), the periodic guard has no further conjunct, and no step-removing manager method is called.'
)
RULES = {
    "R12.1": "periodic save guard == is_checkpointing_enabled and self.iteration % self.checkpoint_frequency == 0, modulus flowing from config.checkpoint_frequency",
    "R12.2": "a save(self.iteration), alone or under the sole guard is_checkpointing_enabled, lies on every path from the loop exit to the return",
    "R12.3": "config.max_checkpoints / enable_async_checkpointing reach CheckpointManagerOptions(max_to_keep=, enable_async_checkpointing=) through all hops",
    "R12.4": "in _setup_checkpointing the `checkpoint_frequency == 0` return dominates mkdir, manager creation and the config write",
    "R12.5": "_save_solver_config() is called iff has_full_config",
    "R12.9": "what is written to and kept in a solver's directory is governed by THAT solver's settings: no module-level or class-level mutable container (a cache of checkpoint managers, options, directories) is written by any function of the package, so a manager made for another solver's max_checkpoints / async flag is never handed out again (instances of C19 R19.5; expected count zero)",
    "R12.8": "every retained step holds the solver state of that iteration: between a step and the save that records it, saved state is written only by storing the step's results (instances of C09 R9.7)",
    "R12.7": "restore(): an explicit checkpoint_frequency / max_checkpoints override - including 0, which disables checkpointing - reaches the configuration (guarded by `is not None`, not by truthiness)",
    "R12.6": "file-system effects on a checkpoint directory occur only at the frozen sites (mkdir + OmegaConf.save in set-up, CheckpointManager(create=True) in _create_checkpoint_manager, checkpoint_manager.save)",
    "R12.10": "nothing but (checkpoint_frequency, max_checkpoints) decides which steps are written and kept: every CheckpointManagerOptions carries only max_to_keep / create / enable_async_checkpointing (no save_interval_steps, keep_period, save_on_steps, should_save_fn, best_fn, ... and none assigned afterwards), checkpoint_manager.save passes no `force` / `metrics` that a policy could key on, and no manager method that removes steps (delete, reload-after-prune, close-and-clean) is called by the package",
}
ASSUMPTIONS = [
    "orbax CheckpointManager honours max_to_keep and creates the directory only when constructed",
    "is_checkpointing_enabled is false whenever checkpoint_frequency == 0 (decided here from its body)",
]

FS_METHODS = {"mkdir", "write_text", "write_bytes", "unlink", "rmdir", "rename", "replace", "touch", "symlink_to", "open"}
FS_FUNCS = {"open", "os.remove", "os.rename", "os.unlink", "os.rmdir", "os.makedirs", "os.mkdir", "os.replace",
            "shutil.rmtree", "shutil.move", "shutil.copy", "shutil.copyfile", "shutil.copytree", "shutil.copy2",
            "OmegaConf.save", "omegaconf.OmegaConf.save"}


def bind_args(call: ast.Call, fn: ast.FunctionDef, skip_first=True):
    """formal name -> actual expression."""
    ps = [a.arg for a in fn.args.args]
    if skip_first and ps and ps[0] in ("self", "cls"):
        ps = ps[1:]
    out = {}
    for p, a in zip(ps, call.args):
        out[p] = a
    for kw in call.keywords:
        if kw.arg:
            out[kw.arg] = kw.value
    return out


def _shared_state(ctx, col, as_rule="R12.9"):
    from .c19 import _class_state, _module_state

    class _As:
        def __init__(self, col):
            self.col = col

        def add(self, rule, *a, **k):
            return self.col.add(as_rule, *a, **k)

        def __getattr__(self, n):
            return getattr(self.col, n)

    _module_state(ctx, _As(col))


def run(ctx: Context, col) -> None:
    from .common import Parts

    part = Parts()
    for cls in ctx.solvers():
        loop = ctx.solve_loop(cls)
        part(_periodic, ctx, cls, loop, col)
        part(_final, ctx, cls, loop, col)
        part(_flow, ctx, cls, col)
    from .c09 import _saved_state_untouched, save_paths
    for cls in ctx.solvers():
        spaths = save_paths(ctx, cls)[2]
        part(_saved_state_untouched, ctx, cls, ctx.solve_loop(cls), {k for k in spaths if not k.startswith("<")}, col, "R12.8")
    part(_setup, ctx, col)
    part(_enabled, ctx, col)
    part(_writers, ctx, col)
    part(_override_zero, ctx, col)
    part(_shared_state, ctx, col)
    part(_policy_options, ctx, col)
    part.finish()
    col.floor("R12.10", 3)
    col.floor("R12.9", 1)
    col.floor("R12.8", 5)
    col.floor("R12.7", 2)
    col.floor("R12.1", 6)
    col.floor("R12.2", 5)
    col.floor("R12.3", 5)
    col.floor("R12.4", 3)
    col.floor("R12.5", 1)
    col.floor("R12.6", 4)


def _is_enabled(e) -> bool:
    return is_self_attr(e, "is_checkpointing_enabled")


def _is_cadence(e) -> bool:
    """self.iteration % self.checkpoint_frequency == 0 (either operand order of ==)."""
    if not (isinstance(e, ast.Compare) and len(e.ops) == 1 and isinstance(e.ops[0], ast.Eq)):
        return False
    l, r = e.left, e.comparators[0]
    if isinstance(l, ast.Constant):
        l, r = r, l
    if not (isinstance(r, ast.Constant) and r.value == 0 and not isinstance(r.value, bool)):
        return False
    return (
        isinstance(l, ast.BinOp) and isinstance(l.op, ast.Mod)
        and is_self_attr(l.left, SolveLoop.COUNTER) and is_self_attr(l.right, "checkpoint_frequency")
    )


def _save_sites(loop: SolveLoop):
    out = []
    for n in loop.cfg.stmts():
        region = SolveLoop.node_region(n)
        if region is None:
            continue
        if loop.reaches_save(n):
            out.append(n)
    return out


def _guards_of(loop: SolveLoop, node, stop_at):
    """Conjuncts (with polarity) of the `if` tests enclosing node, up to stop_at."""
    parents = parents_of(loop.fn)
    cur = node.ast
    conj = []
    while cur is not None and cur is not stop_at:
        p = parents.get(id(cur))
        if isinstance(p, ast.If):
            pol = any(cur is s for s in p.body)
            conj.append((p.test, pol))
        elif isinstance(p, (ast.For, ast.While)) and p is not stop_at:
            conj.append((p, None))
        cur = p
    return conj


def _flatten_and(test):
    if isinstance(test, ast.BoolOp) and isinstance(test.op, ast.And):
        out = []
        for v in test.values:
            out += _flatten_and(v)
        return out
    return [test]


def _periodic(ctx, cls, loop: SolveLoop, col):
    construct = f"{cls.name}.solve"
    sites = [n for n in _save_sites(loop) if n.id in loop.members]
    if not sites:
        col.add("R12.1", construct, loop.file, loop.header.lineno, False,
                "no periodic save inside the solve loop", text="periodic save")
        return
    for n in sites:
        conj = []
        bad_shape = None
        for test, pol in _guards_of(loop, n, loop.header.ast):
            if pol is None:
                bad_shape = "save nested in an inner loop"
            elif pol is False:
                bad_shape = f"save in the else-branch of `{ast.unparse(test)}`"
            else:
                conj += _flatten_and(test)
        en = [c for c in conj if _is_enabled(c)]
        cad = [c for c in conj if _is_cadence(c)]
        rest = [c for c in conj if c not in en and c not in cad]
        ok = bad_shape is None and len(cad) == 1 and not rest
        # a guard that is a call of one of the solver's own methods (a predicate helper that could not be inlined) hides the
        # cadence: neither conformance nor a deviation can be shown
        opaque = [c for c in rest if any(isinstance(x, ast.Call) and self_call_name(x) for x in ast.walk(c))]
        if not ok and opaque and bad_shape is None:
            raise AnalysisError(f"{construct}: the periodic save is guarded by `{ast.unparse(opaque[0])}`, a predicate method this rule cannot "
                                "read (not inlined); R12.1 cannot be decided")
        # the enabled test may be omitted: save() itself returns early when not enabled, but then
        # the modulus would be evaluated with frequency 0 -> require it
        if ok and not en:
            ok = False
            bad_shape = "cadence test not protected by is_checkpointing_enabled (modulo by zero when disabled)"
        col.add("R12.1", construct, loop.file, n.lineno, ok,
                "periodic save under `is_checkpointing_enabled and self.iteration % self.checkpoint_frequency == 0`"
                if ok else (bad_shape or f"periodic save guard is `{' and '.join(ast.unparse(c) for c in conj) or 'True'}`"),
                text=stmt_text(n) + " [periodic]")


def _final(ctx, cls, loop: SolveLoop, col):
    construct = f"{cls.name}.solve"
    g = loop.cfg
    sites = [n for n in _save_sites(loop) if n.id not in loop.members]
    # every path from the loop exit to the normal exit must pass a save whose only guard is the enabled-test;
    # a path on which `is_checkpointing_enabled` evaluated False is exempt (nothing to save)
    bad = None
    npaths = 0
    for p in loop.post_loop_paths():
        if p[-1][0] is g.raise_exit:
            continue
        npaths += 1
        hit = False
        exempt = False
        for node, label in p:
            if node.kind == "test" and label == "F" and any(_is_enabled(c) for c in _flatten_and(node.ast.test)) \
                    and all(_is_enabled(c) for c in _flatten_and(node.ast.test)):
                exempt = True
            if node in sites:
                conj = []
                for test, pol in _guards_of(loop, node, loop.fn):
                    if pol is True:
                        conj += _flatten_and(test)
                    else:
                        conj.append(None)
                if all(c is not None and _is_enabled(c) for c in conj):
                    hit = True
        if not hit and not exempt:
            bad = p
            break
    ok = bad is None and npaths > 0
    col.add("R12.2", construct, loop.file, (sites[0].lineno if sites else loop.header.lineno), ok,
            f"final save(self.iteration) on all {npaths} paths from the loop to the return (or checkpointing disabled)"
            if ok else (f"path {fmt_path(bad)} reaches the return without a final save" if bad else "no path to the return"),
            text="final save")


def _flow(ctx, cls, col):
    """config.{checkpoint_dir, checkpoint_frequency, max_checkpoints, enable_async_checkpointing}
    -> _setup_checkpointing parameters of the same name."""
    owner, fn = ctx.ct.require(cls, "_setup_additional_components")
    so, sfn = ctx.ct.require(cls, "_setup_checkpointing")
    calls = [c for c in calls_in(fn) if self_call_name(c) == "_setup_checkpointing"]
    construct = f"{cls.name}._setup_additional_components"
    if len(calls) != 1:
        col.add("R12.3", construct, owner.module.relpath, fn.lineno, False,
                f"{len(calls)} calls of _setup_checkpointing (expected 1)", text="setup call")
        return
    b = bind_args(calls[0], sfn)
    want = ["checkpoint_dir", "checkpoint_frequency", "max_checkpoints", "enable_async_checkpointing"]
    wrong = []
    for w in want:
        a = b.get(w)
        if a is None or ast.unparse(a) != f"self.config.{w}":
            wrong.append(f"{w} <- {ast.unparse(a) if a is not None else '<default>'}")
    ok = not wrong
    col.add("R12.3", construct, owner.module.relpath, calls[0].lineno, ok,
            "each _setup_checkpointing parameter receives the config field of the same name" if ok else
            "parameter binding: " + "; ".join(wrong), text="config -> _setup_checkpointing")


def _setup(ctx, col):
    cm = ctx.ct.get("CheckpointMixin")
    owner, fn = ctx.ct.require(cm, "_setup_checkpointing")
    file = owner.module.relpath
    g = cfg_of(fn)
    # --- R12.3 hop 2: _setup_checkpointing -> _create_checkpoint_manager -> CheckpointManagerOptions
    co, cfn = ctx.ct.require(cm, "_create_checkpoint_manager")
    calls = [c for c in calls_in(fn) if self_call_name(c) == "_create_checkpoint_manager"]
    if len(calls) != 1:
        col.add("R12.3", "CheckpointMixin._setup_checkpointing", file, fn.lineno, False,
                f"{len(calls)} calls of _create_checkpoint_manager (expected 1)", text="manager creation")
    else:
        b = bind_args(calls[0], cfn)
        okk = (
            _same_name_or_attr(b.get("max_checkpoints"), "max_checkpoints")
            and _same_name_or_attr(b.get("enable_async_checkpointing"), "enable_async_checkpointing")
            and _same_name_or_attr(b.get("checkpoint_dir"), "checkpoint_dir")
        )
        col.add("R12.3", "CheckpointMixin._setup_checkpointing", file, calls[0].lineno, okk,
                "directory, retention and async flag are passed to _create_checkpoint_manager in their own slots" if okk else
                "binding: " + ", ".join(f"{k} <- {ast.unparse(v)}" for k, v in b.items()), text="-> _create_checkpoint_manager")
    opts = [c for c in calls_in(cfn) if ast.unparse(c.func).endswith("CheckpointManagerOptions")]
    if len(opts) != 1:
        col.add("R12.3", "CheckpointMixin._create_checkpoint_manager", file, cfn.lineno, False,
                f"{len(opts)} CheckpointManagerOptions(...) constructions (expected 1)", text="options")
    else:
        kws = {k.arg: k.value for k in opts[0].keywords}
        okk = (
            isinstance(kws.get("max_to_keep"), ast.Name) and kws["max_to_keep"].id == "max_checkpoints"
            and isinstance(kws.get("enable_async_checkpointing"), ast.Name)
            and kws["enable_async_checkpointing"].id == "enable_async_checkpointing"
            and not opts[0].args
        )
        col.add("R12.3", "CheckpointMixin._create_checkpoint_manager", file, opts[0].lineno, okk,
                "CheckpointManagerOptions(max_to_keep=max_checkpoints, enable_async_checkpointing=enable_async_checkpointing)" if okk else
                f"options built as `{norm_text(opts[0])}`", text="CheckpointManagerOptions")
        mgr = [c for c in calls_in(cfn) if ast.unparse(c.func).endswith("CheckpointManager")]
        okm = len(mgr) == 1 and mgr[0].args and isinstance(mgr[0].args[0], ast.Name) and mgr[0].args[0].id == "checkpoint_dir" \
            and any(k.arg == "options" and (isinstance(k.value, ast.Name) or k.value is opts[0]) for k in mgr[0].keywords)
        col.add("R12.3", "CheckpointMixin._create_checkpoint_manager", file, cfn.lineno, bool(okm),
                "CheckpointManager(checkpoint_dir, options=options)" if okm else "manager not built from (checkpoint_dir, options)",
                text="CheckpointManager")
    # self.checkpoint_frequency := parameter
    assigns = [s for s in ast.walk(fn) if isinstance(s, ast.Assign) and len(s.targets) == 1 and is_self_attr(s.targets[0], "checkpoint_frequency")]
    okf = len(assigns) == 1 and isinstance(assigns[0].value, ast.Name) and assigns[0].value.id == "checkpoint_frequency"
    col.add("R12.1", "CheckpointMixin._setup_checkpointing", file, (assigns[0].lineno if assigns else fn.lineno), okf,
            "self.checkpoint_frequency is the set-up parameter" if okf else "self.checkpoint_frequency is not assigned from the parameter",
            text="self.checkpoint_frequency = checkpoint_frequency")

    # --- R12.4 file-system effects happen only on paths where the frequency is known to be positive
    from .common import conditions_at, implies_positive
    FREQ = {"self.checkpoint_frequency"} | ({"checkpoint_frequency"} if okf else set())
    effects = []
    for n in g.stmts():
        region = SolveLoop.node_region(n)
        if region is None:
            continue
        for reg in (region if isinstance(region, list) else [region]):
            for c in calls_in(reg):
                kind = _fs_effect(c)
                if kind:
                    effects.append((n, kind))
                nm = self_call_name(c)
                if nm in ("_create_checkpoint_manager", "_save_solver_config"):
                    effects.append((n, nm))
    if not effects:
        col.add("R12.4", "CheckpointMixin._setup_checkpointing", file, fn.lineno, False,
                "the set-up creates no directory / manager at all", text="frequency-zero return")
    else:
        col.add("R12.4", "CheckpointMixin._setup_checkpointing", file, fn.lineno, True,
                f"{len(effects)} file-system / manager effects located", text="frequency-zero return")
    for n, kind in effects:
        conds = conditions_at(fn, n.ast)
        ok = any(implies_positive(c, FREQ) for c in conds)
        col.add("R12.4", "CheckpointMixin._setup_checkpointing", file, n.lineno, ok,
                f"`{kind}` is reached only where checkpoint_frequency != 0 is known" if ok else
                f"`{kind}` at line {n.lineno} can execute with checkpoint_frequency == 0 (path conditions: {[ast.unparse(c) for c in conds]})",
                text=f"{kind} after f==0 return")

    # --- R12.5 config written iff has_full_config
    sites = [(n, c) for n in g.stmts() for c in _calls_at(n) if self_call_name(c) == "_save_solver_config"]
    ok5 = len(sites) == 1
    why5 = f"{len(sites)} calls of _save_solver_config (expected 1)"
    if ok5:
        n = sites[0][0]
        conds = [c for c in conditions_at(fn, n.ast, raising_guards=False) if not implies_positive(c, FREQ)]
        ok5 = len(conds) == 1 and is_self_attr(conds[0], "has_full_config")
        why5 = "_save_solver_config() is called exactly under `self.has_full_config` (besides the frequency guard)" if ok5 else \
            f"_save_solver_config() is not guarded by exactly `self.has_full_config` (path conditions: {[ast.unparse(c) for c in conds]})"
    col.add("R12.5", "CheckpointMixin._setup_checkpointing", file, (sites[0][0].lineno if sites else fn.lineno), ok5, why5,
            text="_save_solver_config under has_full_config")
    # has_full_config itself: "reconstructible" means the PROBLEM INSTANCE carries a configuration with a _target_ and so does the solver
    ho, hfn = ctx.ct.require(cm, "has_full_config")
    bases = _target_bases(hfn)
    need = {"self.problem.config", "self.config"}
    okh = need <= bases
    col.add("R12.5", "CheckpointMixin.has_full_config", ho.module.relpath, hfn.lineno, okh,
            "full configuration == the problem instance's config and the solver's config both carry a _target_" if okh else
            f"has_full_config tests `_target_` of {sorted(bases)}; it must test it on {sorted(need)} - a problem instance without a configuration of its own "
            "is not reconstructible whatever the solver configuration's `problem` field holds, so config.yaml would be written for a problem it does not describe",
            text="has_full_config predicate")
    so, sfn = ctx.ct.require(cm, "_save_solver_config")
    wr = [c for c in calls_in(deref(sfn, sfn)) if ast.unparse(c.func) == "OmegaConf.save"]
    okw = len(wr) == 1 and len(wr[0].args) == 2 and ast.unparse(wr[0].args[0]) == "self.config" \
        and ast.unparse(wr[0].args[1]) == "self.checkpoint_dir / 'config.yaml'"
    col.add("R12.5", "CheckpointMixin._save_solver_config", file, sfn.lineno, okw,
            "writes self.config to <checkpoint_dir>/config.yaml" if okw else "does not write self.config to checkpoint_dir/config.yaml",
            text="OmegaConf.save(self.config, self.checkpoint_dir / 'config.yaml')")


def _calls_at(n):
    region = SolveLoop.node_region(n)
    if region is None:
        return []
    out = []
    for reg in (region if isinstance(region, list) else [region]):
        out += calls_in(reg)
    return out


def _on_false_side(g, test_node, n) -> bool:
    """n is not reachable from the T branch of test_node without passing the function exit."""
    for m, lab in test_node.succ:
        if lab == "T":
            seen, stack = set(), [m]
            while stack:
                x = stack.pop()
                if x.id in seen:
                    continue
                seen.add(x.id)
                if x is n:
                    return False
                stack.extend(y for y, _ in x.succ)
    return True


def _same_name_or_attr(e, name) -> bool:
    return e is not None and ((isinstance(e, ast.Name) and e.id == name) or is_self_attr(e, name))


def _fs_effect(c: ast.Call) -> str | None:
    f = c.func
    src = ast.unparse(f)
    if src in FS_FUNCS:
        if src == "open":
            mode = None
            if len(c.args) > 1 and isinstance(c.args[1], ast.Constant):
                mode = c.args[1].value
            for k in c.keywords:
                if k.arg == "mode" and isinstance(k.value, ast.Constant):
                    mode = k.value.value
            if mode is None or not any(ch in str(mode) for ch in "wax+"):
                return None
        return src
    if isinstance(f, ast.Attribute) and f.attr in FS_METHODS and not src.startswith("logger."):
        if f.attr == "open":
            return None if not c.args and not c.keywords else src
        if f.attr == "replace" and len(c.args) == 2:
            return None  # str.replace(old, new)
        return src
    return None


def _enabled(ctx, col):
    cm = ctx.ct.get("CheckpointMixin")
    owner, fn = ctx.ct.require(cm, "is_checkpointing_enabled")
    from .common import returned_expr
    rv = returned_expr(fn)
    ok = False
    if rv is not None:
        conj = _flatten_and(rv)
        def positive(c):
            if not (isinstance(c, ast.Compare) and len(c.ops) == 1):
                return False
            l, r, op = c.left, c.comparators[0], c.ops[0]
            if isinstance(op, ast.Gt) and is_self_attr(l, "checkpoint_frequency") and isinstance(r, ast.Constant) and r.value == 0:
                return True
            if isinstance(op, ast.Lt) and is_self_attr(r, "checkpoint_frequency") and isinstance(l, ast.Constant) and l.value == 0:
                return True
            if isinstance(op, ast.GtE) and is_self_attr(l, "checkpoint_frequency") and isinstance(r, ast.Constant) and r.value == 1:
                return True
            return False

        from .common import implies_positive
        ok = any(positive(c) or implies_positive(c, {"self.checkpoint_frequency"}) and not is_self_attr(c) for c in conj)
    col.add("R12.1", "CheckpointMixin.is_checkpointing_enabled", owner.module.relpath, fn.lineno, ok,
            "enabled implies self.checkpoint_frequency > 0" if ok else "enabled-test does not require checkpoint_frequency > 0",
            text="is_checkpointing_enabled")
    # save() returns early when not enabled
    so, sfn = ctx.ct.require(cm, "save")
    dsfn = deref(sfn, sfn)
    # every manager.save / state snapshot in save() runs only where `self.is_checkpointing_enabled` is known to hold
    from .common import conditions_at
    writes = [st for st in ast.walk(dsfn) if isinstance(st, ast.stmt) and not isinstance(st, (ast.If, ast.FunctionDef)) and any(
        isinstance(c.func, ast.Attribute) and c.func.attr == "save" and "checkpoint_manager" in ast.unparse(c.func.value) for c in calls_in(st))]
    ok2 = bool(writes) and all(any(_is_enabled(c) for c in conditions_at(dsfn, st)) for st in writes)
    col.add("R12.4", "CheckpointMixin.save", so.module.relpath, sfn.lineno, ok2,
            "save() writes nothing unless checkpointing is enabled" if ok2 else "save() lacks the `if not self.is_checkpointing_enabled: return` guard",
            text="save early return")


# frozen table of the allowed file-system effects: (class or module function, callee text) -> reason
ALLOWED_FS = {
    ("CheckpointMixin._setup_checkpointing", "self.checkpoint_dir.mkdir"): "creates the checkpoint directory (past the f==0 return, R12.4)",
    ("CheckpointMixin._save_solver_config", "OmegaConf.save"): "writes config.yaml (iff has_full_config, R12.5)",
}


def _writers(ctx, col):
    """R12.6: enumerate every file-system effect in src/mdpax; only the frozen sites may exist,
    plus CheckpointManager construction in _create_checkpoint_manager and checkpoint_manager.save in save()."""
    found = []
    for m in ctx.repo.modules.values():
        for node in ast.walk(m.tree):
            if not isinstance(node, (ast.FunctionDef, ast.ClassDef)):
                continue
        parents = parents_of(m.tree)
        for c in ast.walk(m.tree):
            if not isinstance(c, ast.Call):
                continue
            kind = _fs_effect(c)
            src = ast.unparse(c.func)
            is_mgr_ctor = src.endswith("CheckpointManager")
            is_mgr_save = isinstance(c.func, ast.Attribute) and c.func.attr == "save" and "manager" in ast.unparse(c.func.value)
            if not (kind or is_mgr_ctor or is_mgr_save):
                continue
            cur = c
            names = []
            while cur is not None:
                cur = parents.get(id(cur))
                if isinstance(cur, (ast.FunctionDef, ast.ClassDef)):
                    names.append(cur.name)
            q = ".".join(reversed(names)) or m.name
            found.append((m, c, q, kind or src, is_mgr_ctor, is_mgr_save))
    seen_required = set()
    for m, c, q, kind, is_ctor, is_save in found:
        if is_ctor:
            ok = q == "CheckpointMixin._create_checkpoint_manager"
            why = "CheckpointManager is constructed only in _create_checkpoint_manager" if ok else f"CheckpointManager constructed in {q}"
            seen_required.add("ctor") if ok else None
        elif is_save:
            ok = q == "CheckpointMixin.save"
            why = "checkpoint_manager.save is called only from save()" if ok else f"manager.save called from {q}"
            seen_required.add("save") if ok else None
        else:
            ok = (q, kind) in ALLOWED_FS
            why = ALLOWED_FS.get((q, kind)) or f"file-system effect `{kind}` in {q} is not one of the frozen checkpoint writers"
            if ok:
                seen_required.add(kind)
        col.add("R12.6", q, m.relpath, c.lineno, ok, why, text=norm_text(c)[:100])
    for need in ("ctor", "save", "self.checkpoint_dir.mkdir", "OmegaConf.save"):
        if need not in seen_required:
            raise AnalysisError(f"anchor vanished: checkpoint writer `{need}` not found at its frozen site")
    # callers of _create_checkpoint_manager: set-up (write) and the two read routes
    callers = []
    for m in ctx.repo.modules.values():
        parents = parents_of(m.tree)
        for c in ast.walk(m.tree):
            if isinstance(c, ast.Call) and isinstance(c.func, ast.Attribute) and c.func.attr == "_create_checkpoint_manager":
                cur = c
                while cur is not None and not isinstance(cur, ast.FunctionDef):
                    cur = parents.get(id(cur))
                callers.append(cur.name if cur is not None else m.name)
    ok = sorted(callers) == ["_setup_checkpointing", "load_checkpoint", "restore"]
    cm = ctx.ct.get("CheckpointMixin")
    col.add("R12.6", "CheckpointMixin._create_checkpoint_manager", cm.module.relpath, cm.node.lineno, ok,
            "managers are created by the set-up and by the two read routes only" if ok else
            f"_create_checkpoint_manager is called from {sorted(callers)}", text="callers of _create_checkpoint_manager")


class _Refile:
    def __init__(self, col):
        self.col = col

    def add(self, rule, construct, file, line, ok, detail, text="", **k):
        if rule == "R10.4" and text in ("override checkpoint_frequency", "override max_checkpoints"):
            return self.col.add("R12.7", construct, file, line, ok, detail, text=text, **k)
        return True

    def __getattr__(self, n):
        return getattr(self.col, n)


def _override_zero(ctx, col):
    from . import c10

    c10._overrides(ctx, _Refile(col))


# options of orbax's CheckpointManagerOptions that change WHICH steps are written or kept (one reason each)
OPTS_ALLOWED = {"max_to_keep", "create", "enable_async_checkpointing"}
OPTS_AFFECTING = {
    "save_interval_steps": "manager.save() silently skips every step that is not a multiple of it",
    "save_on_steps": "forces / restricts the set of steps written",
    "should_save_fn": "a predicate decides which steps are written",
    "save_decision_policy": "a policy object decides which steps are written",
    "keep_period": "steps divisible by it are kept forever, beyond max_to_keep",
    "keep_time_interval": "steps are kept by wall-clock age, beyond max_to_keep",
    "should_keep_fn": "a predicate decides which steps are kept",
    "preservation_policy": "a policy object decides which steps are kept",
    "best_fn": "retention keeps the best-scoring steps instead of the latest",
    "best_mode": "retention keeps the best-scoring steps instead of the latest",
    "keep_checkpoints_without_metrics": "retention depends on metrics",
    "read_only": "nothing is written at all",
    "todelete_subdir": "pruned steps are renamed into a sub-directory instead of removed",
    "todelete_full_path": "pruned steps are moved elsewhere instead of removed",
}
OPTS_NEUTRAL = {"async_options", "enable_background_delete", "cleanup_tmp_directories", "multiprocessing_options",
                "file_options", "temporary_path_class", "enable_hns", "enable_per_process_directory_creation",
                "lightweight_initialize", "save_root_metadata", "prevent_write_metrics", "step_name_format",
                "step_prefix", "step_format_fixed_length", "single_host_load_and_broadcast", "should_use_tensorstore_for_numpy_array",
                "enable_should_save_is_saving_in_progress_check", "max_to_keep"}
MGR_REMOVING = {"delete": "removes a step directory", "_cleanup": "prunes steps", "_delete": "removes a step directory"}


def _manager_exprs(ctx):
    """texts of expressions bound to a checkpoint manager anywhere in the package"""
    out = {"self.checkpoint_manager"}
    for m in ctx.repo.modules.values():
        for st in ast.walk(m.tree):
            if isinstance(st, ast.Assign) and isinstance(st.value, ast.Call):
                f = ast.unparse(st.value.func)
                if f.endswith("_create_checkpoint_manager") or f.endswith("CheckpointManager"):
                    for t in st.targets:
                        out.add(ast.unparse(t))
    return out


def _policy_options(ctx, col):
    n_opts = 0
    undecided = []
    for m in ctx.repo.modules.values():
        parents = parents_of(m.tree)

        def where(c):
            names, cur = [], c
            while cur is not None:
                cur = parents.get(id(cur))
                if isinstance(cur, (ast.FunctionDef, ast.ClassDef)):
                    names.append(cur.name)
            return ".".join(reversed(names)) or m.name

        mgrs = _manager_exprs(ctx)
        for c in ast.walk(m.tree):
            if isinstance(c, ast.Call) and ast.unparse(c.func).endswith("CheckpointManagerOptions"):
                n_opts += 1
                q = where(c)
                bad = [k.arg for k in c.keywords if k.arg in OPTS_AFFECTING]
                unknown = [k.arg or "**" for k in c.keywords if k.arg not in OPTS_AFFECTING and k.arg not in OPTS_ALLOWED and k.arg not in OPTS_NEUTRAL]
                if c.args:
                    unknown.append("<positional>")
                if unknown and not bad:
                    raise AnalysisError(f"{m.relpath}:{c.lineno} CheckpointManagerOptions is given {unknown}: not in the table of options "
                                        "read for their effect on cadence / retention; R12.10 cannot be decided")
                col.add("R12.10", q, m.relpath, c.lineno, not bad,
                        "the manager's options leave cadence and retention to checkpoint_frequency and max_to_keep" if not bad else
                        "; ".join(f"`{b}`: {OPTS_AFFECTING[b]}" for b in bad) + " - which steps are written / kept no longer follows "
                        "checkpoint_frequency and max_checkpoints alone", text="CheckpointManagerOptions keywords")
            # an option assigned after construction (options.keep_period = ..), dataclasses.replace(options, keep_period=..)
            if isinstance(c, (ast.Assign, ast.AugAssign, ast.AnnAssign)):
                tg = c.targets if isinstance(c, ast.Assign) else [c.target]
                for t in tg:
                    if isinstance(t, ast.Attribute) and t.attr in OPTS_AFFECTING and not is_self_attr(t):
                        col.add("R12.10", where(c), m.relpath, c.lineno, False,
                                f"`{ast.unparse(t)}` is assigned: {OPTS_AFFECTING[t.attr]}", text=f"assignment of option {t.attr}")
            if isinstance(c, ast.Call) and ast.unparse(c.func).endswith("replace") and c.args and "option" in ast.unparse(c.args[0]).lower():
                bad = [k.arg for k in c.keywords if k.arg in OPTS_AFFECTING]
                if bad:
                    col.add("R12.10", where(c), m.relpath, c.lineno, False,
                            "; ".join(f"`{b}`: {OPTS_AFFECTING[b]}" for b in bad), text="options replaced")
            if isinstance(c, ast.Call) and isinstance(c.func, ast.Attribute):
                recv = ast.unparse(c.func.value)
                is_mgr = recv in mgrs or "manager" in recv.lower()
                if is_mgr and c.func.attr in MGR_REMOVING:
                    col.add("R12.10", where(c), m.relpath, c.lineno, False,
                            f"`{norm_text(c)[:80]}` {MGR_REMOVING[c.func.attr]}: a retained step is removed by the package, not by max_to_keep",
                            text=f"manager.{c.func.attr}")
                if is_mgr and c.func.attr == "save":
                    kw = {k.arg for k in c.keywords}
                    extra = sorted(k for k in kw if k not in ("args", "items", None))
                    ok = not extra or extra == ["force"] and False
                    if "force" in kw or "metrics" in kw or None in kw:
                        undecided.append(f"{m.relpath}:{c.lineno} checkpoint_manager.save is passed {sorted(str(k) for k in kw)}: "
                                            "force / metrics interact with save policies; R12.10 cannot be decided")
                        continue
                    col.add("R12.10", where(c), m.relpath, c.lineno, not extra,
                            "checkpoint_manager.save(step, args=...) - nothing a save policy could key on" if not extra else
                            f"checkpoint_manager.save is passed {extra}", text="manager.save keywords")
    if n_opts == 0:
        raise AnalysisError("anchor vanished: no CheckpointManagerOptions(...) construction in the package")
    if undecided:
        raise AnalysisError(undecided[0])
    cm = ctx.ct.get("CheckpointMixin")
    col.add("R12.10", "CheckpointMixin", cm.module.relpath, cm.node.lineno, True,
            f"{n_opts} options construction(s) and every call on a checkpoint manager examined; no step-removing manager method is called",
            text="manager methods")


def _target_bases(fn) -> set[str]:
    """dotted texts of the objects whose `_target_` the function reads (`x._target_`, `getattr(x, "_target_", ..)`, `hasattr(x, "_target_")`), with locals
    (also walrus targets) bound once to an attribute chain / getattr resolved"""
    alias = {}
    for n in ast.walk(fn):
        if isinstance(n, ast.Assign) and len(n.targets) == 1 and isinstance(n.targets[0], ast.Name):
            alias.setdefault(n.targets[0].id, []).append(n.value)
        if isinstance(n, ast.NamedExpr) and isinstance(n.target, ast.Name):
            alias.setdefault(n.target.id, []).append(n.value)

    def dotted(e, depth=0):
        if depth > 8:
            return None
        if isinstance(e, ast.NamedExpr):
            return dotted(e.value, depth + 1)
        if isinstance(e, ast.Name):
            if e.id == "self":
                return "self"
            vs = alias.get(e.id)
            return dotted(vs[0], depth + 1) if vs and len(vs) == 1 else None
        if isinstance(e, ast.Attribute):
            b = dotted(e.value, depth + 1)
            return None if b is None else f"{b}.{e.attr}"
        if isinstance(e, ast.Call) and isinstance(e.func, ast.Name) and e.func.id == "getattr" and len(e.args) >= 2 \
                and isinstance(e.args[1], ast.Constant) and isinstance(e.args[1].value, str):
            b = dotted(e.args[0], depth + 1)
            return None if b is None else f"{b}.{e.args[1].value}"
        return None

    out = set()
    for n in ast.walk(fn):
        if isinstance(n, ast.Attribute) and n.attr == "_target_":
            b = dotted(n.value)
            if b:
                out.add(b)
        if isinstance(n, ast.Call) and isinstance(n.func, ast.Name) and n.func.id in ("getattr", "hasattr") and len(n.args) >= 2 \
                and isinstance(n.args[1], ast.Constant) and n.args[1].value == "_target_":
            b = dotted(n.args[0])
            if b:
                out.add(b)
    return out
