#!/usr/bin/env python3
"""Markdown table of /verif/seeded/*/meta.json (for DESIGN.md section 10.6)."""
import json
from pathlib import Path

rows = []
for d in sorted((Path(__file__).resolve().parent / "seeded").iterdir()):
    m = json.loads((d / "meta.json").read_text())
    rules = []
    for p, reps in m["reported_by"].items():
        rs = sorted({r.split()[1] for r in reps if len(r.split()) > 1 and r.split()[1].startswith("R")})
        rules.append(f"{p} ({', '.join(rs)})")
    rows.append((m["id"], m["breaks_property"], m["needs_to_manifest"], "; ".join(rules) or "none", m.get("note", "")))
print("| seed | property | needs, in order to manifest | reported by (rules) | history |")
print("|------|----------|------------------------------|---------------------|---------|")
for r in rows:
    print("| " + " | ".join(x.replace("|", "/").replace("\n", " ") for x in r) + " |")
