"""C02 - one sweep is the exact Bellman optimality backup; the policy is greedy."""

from __future__ import annotations

from ..loader import AnalysisError
from ..terms import show_norm
from .common import Context
from .kernels import ACTIONS, SS, bellman_oracle, leaf_role_problems, policy_oracle, run_method
from .solverterms import brief, same

PROP = "C02"
EXPLANATION = (
    "For every solver class the whole kernel chain _iteration_step -> _update_values -> pmapped "
    "attribute -> lax.scan -> state batch -> vmap -> per-state max -> vmap -> state-action value -> "
    "vmap(problem.transition / probability) -> value lookup is abstractly interpreted, resolving "
    "every callee in the MRO of that class and following every tuple BY POSITION (the carry tuple is "
    "unpacked under wrong local names in ValueIteration, so names cannot be trusted).  The resulting "
    "term for state n must equal the property statement written as a term: "
    "max_a sum_e P(s,A[a],E[e]) * (R(s,A[a],E[e]) + GAMMA * VALUES[state_to_index(next(s,A[a],E[e]))]) "
    "with s = state_space[n], modulo ring normal form, linearity and alpha-renaming; policy extraction "
    "must be ACTIONS[argmax_a] of the same Q-term at self.values / self.gamma; every problem.* leaf "
    "must receive (state, action, event) in that order; un-batching must leave no batch index behind, "
    "so the identity holds for every state including the padded last batch.  Does not decide "
    "floating-point evaluation order or the correctness of problem.transition itself."
)
RULES = {
    "R2.1": "sweep term == [n -> max_a Q(state_space[n], A[a])] with Q the documented expectation (values looked up through problem.state_to_index of the successor)",
    "R2.3": "extracted policy == [n -> ACTIONS[argmax_a Q(state_space[n], A[a])]] with the sweep's own Q at self.values, self.gamma",
    "R2.4": "every problem.* leaf call receives (state[sdim], action[adim], event[edim]) / a state vector, decided from dataflow",
    "R2.6": "code traced by jax.pmap / jax.jit (the kernels) never reads mutable solver state through `self` (values, policy, gain, history, key, ...): such a read is baked in at trace time, so later sweeps would silently use stale values instead of the value vector passed as argument",
    "R2.7": "the discount factor the kernels use is the configured one: the constructor assigns self.gamma from config.gamma itself (through value-transparent array constructors only) - no fallback, rounding or transformation in between",
    "R2.5": "un-batching composes with batching to the identity on real states: no device/batch/slot index survives in the result",
}
ASSUMPTIONS = [
    "jax.pmap / lax.scan / vmap mapping semantics; BatchProcessor summaries justified by C18 R18.1/R18.2",
    "problem.transition / random_event_probability / state_to_index are pure functions of their arguments",
]

SWEEP_CLASSES = ["ValueIteration", "RelativeValueIteration", "PeriodicValueIteration"]
EXTRACT_CLASSES = ["ValueIteration", "PolicyIteration", "RelativeValueIteration", "PeriodicValueIteration", "SemiAsyncValueIteration"]


def run(ctx: Context, col) -> None:
    for name in SWEEP_CLASSES:
        cls = ctx.ct.get(name)
        extra = {}
        if name == "PeriodicValueIteration":
            from ..terms import S
            extra = {"history_index": S("HIDX"), "value_history": S("HIST"), "period": S("self.period")}
        if name == "RelativeValueIteration":
            # the sweep RVI wraps is ValueIteration._iteration_step reached through super()
            I, t = run_method(ctx, cls, "_iteration_step", extra=extra)
            owner, fn = ctx.ct.require(cls, "_iteration_step")
            from ..terms import S, T_sub
            want = I.arith("Sub", bellman_oracle(I), S("self.gain"))
            new = t[1][0]
        else:
            I, t = run_method(ctx, cls, "_iteration_step", extra=extra)
            owner, fn = ctx.ct.require(cls, "_iteration_step")
            want = bellman_oracle(I)
            new = t[1][0]
        ok = new[0] != "interfering" and same(new, want)
        col.add("R2.1", f"{name}._iteration_step", owner.module.relpath, fn.lineno, ok,
                "sweep == [n -> max_a sum_e P*(R + GAMMA*VALUES[idx(next)])]" + (" - gain" if name == "RelativeValueIteration" else "")
                if ok else f"sweep term differs from the Bellman backup: {brief(new, 420)}", text="sweep term")
        _leafs_and_unbatch(I, f"{name}._iteration_step", owner, fn, col)
        col.saw("kernel chains", f"{name}: " + " -> ".join(dict.fromkeys(I.call_log)))
    # PI's policy-evaluation kernel leaf roles are decided under C05; extraction for all classes:
    for name in EXTRACT_CLASSES:
        cls = ctx.ct.get(name)
        I, t = run_method(ctx, cls, "_extract_policy")
        owner, fn = ctx.ct.require(cls, "_extract_policy")
        want = policy_oracle(I)
        ok = same(t, want)
        col.add("R2.3", f"{name}._extract_policy", owner.module.relpath, fn.lineno, ok,
                "policy == [n -> ACTIONS[argmax_a Q]] with the sweep's Q at self.values, self.gamma" if ok else
                f"extraction term differs: {brief(t, 420)}", text="extraction term")
        _leafs_and_unbatch(I, f"{name}._extract_policy", owner, fn, col)
    # initial values kernel
    vi = ctx.ct.get("ValueIteration")
    I, t = run_method(ctx, vi, "_initialize_values", [("batched", SS)])
    owner, fn = ctx.ct.require(vi, "_initialize_values")
    _leafs_and_unbatch(I, "Solver._initialize_values", owner, fn, col)
    _traced_reads(ctx, col)
    _gamma_source(ctx, col)
    col.floor("R2.7", 1)
    col.floor("R2.6", 20)
    col.floor("R2.1", 3)
    col.floor("R2.3", 5)
    col.floor("R2.4", 9)
    col.floor("R2.5", 9)


def _leafs_and_unbatch(I, construct, owner, fn, col):
    probs = leaf_role_problems(I)
    names = sorted({n for n, _a, _w in I.leaf_calls})
    col.add("R2.4", construct, owner.module.relpath, fn.lineno, not probs,
            f"leaf calls {names} receive (state, action, event) / state by position" if not probs else
            f"{probs[0][0]}: {probs[0][1]}", text="leaf argument roles")
    if not I.unbatch_log:
        raise AnalysisError(f"{construct}: no un-batching encountered")
    bad = [u for u in I.unbatch_log if u["interference"] or not all("batched(problem.state_space)" in s for s in u["sources"])]
    col.add("R2.5", construct, owner.module.relpath, fn.lineno, not bad,
            "result is indexed by state n only: Batched(X)[d,b,k] := X[n] leaves no batch index" if not bad else
            f"a device/batch/slot index survives un-batching or the batched array is not the state space ({bad[0]})",
            text="un-batch composition")


# frozen exemptions of R2.6: (class, function, attribute) -> reason
TRACED_READ_OK = {
    ("SemiAsyncValueIteration", "_calculate_updated_value_scan_state_batches", "batch_order"):
        "always None in live code (C06 R6.6): the branch it guards is dead",
}
TRACERS = {"jax.pmap", "jax.jit", "pmap", "jit"}


def _traced_reads(ctx, col):
    import ast

    from ..effects import is_self_attr
    from .c09 import restore_paths, save_paths

    for cls in ctx.solvers():
        eff = ctx.effects(cls)
        loop = ctx.solve_loop(cls)
        _o, _f, spaths, _c = save_paths(ctx, cls)
        _o2, _f2, rpaths, _x = restore_paths(ctx, cls)
        mutable = set(loop.loop_carried()) | {k for k in spaths if not k.startswith("<")} | set(rpaths) | {"values", "policy", "iteration"}
        methods = ctx.ct.methods_of(cls)
        roots = {}
        all_fns = [(k, f_) for k in ctx.ct.mro(cls) for f_ in k.methods.values()]  # overridden set-up methods run through super()
        for owner, fn in all_fns:
            for a in ast.walk(fn):
                if isinstance(a, ast.Assign) and isinstance(a.value, ast.Call) and ast.unparse(a.value.func) in TRACERS:
                    for x in ast.walk(a.value):
                        if is_self_attr(x) and x.attr in methods and not ctx.ct.is_property(cls, x.attr):
                            r = ctx.ct.lookup(cls, x.attr)
                            roots[(r[0].qualname, r[1].name)] = r
        if len(roots) < 2:
            raise AnalysisError(f"anchor vanished: {cls.name} binds {len(roots)} traced (pmap/jit) kernels")
        seen = dict(roots)
        stack = list(roots.values())
        while stack:
            o, f = stack.pop()
            for o2, f2 in eff.callees(f, o):
                k = (o2.qualname, f2.name)
                if k not in seen and not ctx.ct.is_property(cls, f2.name):
                    seen[k] = (o2, f2)
                    stack.append((o2, f2))
        for (_q, _name), (o, f) in sorted(seen.items()):
            bad = []
            for x in ast.walk(f):
                if is_self_attr(x) and isinstance(x.ctx, ast.Load) and x.attr in mutable:
                    if (cls.name, f.name, x.attr) in TRACED_READ_OK:
                        continue
                    bad.append(x)
            col.add("R2.6", f"{cls.name}:{o.name}.{f.name}", o.module.relpath, (bad[0].lineno if bad else f.lineno), not bad,
                    "traced kernel reads no mutable solver state through self" if not bad else
                    f"`self.{bad[0].attr}` is read inside code traced by pmap/jit: its value at the first call is compiled in, later calls "
                    f"ignore updates of self.{bad[0].attr} (use the argument passed into the kernel)", text=f"traced reads in {f.name}")


def _gamma_source(ctx, col):
    import ast

    from ..effects import is_self_attr
    from ..interp import Frame, Interp, Unsupported
    from ..terms import show_norm

    sol = ctx.ct.get("Solver")
    sites = []
    for owner in [sol] + ctx.ct.subclasses(sol):
        for fn in owner.methods.values():
            for st in ast.walk(fn):
                if isinstance(st, ast.Assign) and any(is_self_attr(t, "gamma") for t in st.targets):
                    sites.append((owner, fn, st))
    if not sites:
        raise AnalysisError("anchor vanished: no assignment of self.gamma in the solver classes")
    for owner, fn, st in sites:
        if fn.name == "_restore_state_from_checkpoint":
            continue
        I = Interp(ctx.ct, owner, {"config": ("obj", "config")})
        try:
            t = I.ev(st.value, {"self": ("self",)}, Frame(owner, owner.module, fn))
        except Unsupported as e:
            raise AnalysisError(f"{owner.name}.{fn.name}: self.gamma = {ast.unparse(st.value)[:60]}: {e}") from e
        ok = t == ("sym", "config.gamma")
        col.add("R2.7", f"{owner.name}.{fn.name}", owner.module.relpath, st.lineno, ok,
                "self.gamma is config.gamma (as an array)" if ok else
                f"self.gamma is `{ast.unparse(st.value)[:80]}` = {show_norm(t)[:120]}, not the configured discount factor itself: sweeps and policy "
                "extraction discount by a different number than the one requested", text="gamma source")
