"""Two-way self-test of the checker (thorough tier): seeded variants of today's source, applied
as in-memory overlays, must each be reported by the expected rule; benign variants must stay
silent.  Nothing is written to /repo and mdpax is never executed."""

from __future__ import annotations

import os
import time
from concurrent.futures import ProcessPoolExecutor

from ..loader import AnalysisError, Repo
from ..report import load_known_findings, match_known


def apply_edit(src: str, old: str, new: str, nth: int | None):
    """Replace the nth (0-based) occurrence of old, or the only one when nth is None."""
    cnt = src.count(old)
    if cnt == 0:
        return None, "anchor text not found"
    if nth is None:
        if cnt != 1:
            return None, f"anchor text occurs {cnt} times (expected 1)"
        return src.replace(old, new, 1), None
    if nth >= cnt:
        return None, f"anchor text occurs {cnt} times (nth={nth})"
    pos = -1
    for _ in range(nth + 1):
        pos = src.find(old, pos + 1)
    return src[:pos] + new + src[pos + len(old):], None


def build_overlay(root, edits, start=None):
    """edits: list of (relpath, old, new, nth); `start` = an overlay the edits are made on top of."""
    overlay = dict(start or {})
    for rel, old, new, nth in edits:
        base = overlay.get(rel)
        if base is None:
            p = root / rel
            if not p.exists():
                return None, f"{rel} missing"
            base = p.read_text()
        out, err = apply_edit(base, old, new, nth)
        if err:
            return None, f"{rel}: {err}"
        try:
            compile(out, rel, "exec")
        except SyntaxError as e:
            return None, f"variant does not compile: {e}"
        overlay[rel] = out
    return overlay, None


def _edits_of(v):
    if "edits" in v:
        return [(e["file"], e["old"], e["new"], e.get("nth")) for e in v["edits"]]
    return [(v["file"], v["old"], v["new"], v.get("nth"))]


def run_variant(args):
    root, v, prop = args
    from ..cli import analyse
    from pathlib import Path

    root = Path(root)
    if "seed" in v:
        overlay, err = v["overlay"], "patch context not found in this tree"
        if overlay is not None:
            try:
                for rel, src in overlay.items():
                    compile(src, rel, "exec")
            except SyntaxError as e:
                overlay, err = None, f"does not compile: {e}"
    elif "base" in v:
        # a seeded edit on top of a stored behaviour-preserving refactoring (e.g. a slip inside an extracted collaborator class)
        from .seeds import BENIGN_DIR, apply_unified

        start = apply_unified((BENIGN_DIR / f"{v['base']}.diff").read_text(), lambda rel: (root / rel).read_text())
        if start is None:
            overlay, err = None, f"base refactoring {v['base']} does not apply to this tree"
        else:
            overlay, err = build_overlay(root, _edits_of(v), start)
    else:
        overlay, err = build_overlay(root, _edits_of(v))
    if overlay is None:
        return {"id": v["id"], "status": "selftest-skipped", "why": err}
    known = load_known_findings().get("known", [])
    try:
        col = analyse(prop, Repo(root, overlay))
    except AnalysisError as e:
        return {"id": v["id"], "status": "analysis-error", "why": str(e)[:300]}
    except Exception as e:  # noqa: BLE001
        return {"id": v["id"], "status": "analysis-error", "why": f"{type(e).__name__}: {e}"[:300]}
    fails = [f for f in col.failures() if match_known(f, prop, known) is None]
    if not fails and getattr(col, "incomplete", None):
        # the analysis stopped early and everything reported before that point is a recorded finding: no verdict, as in the real check
        return {"id": v["id"], "status": "analysis-error", "why": str(col.incomplete)[:300]}
    return {
        "id": v["id"],
        "status": "fired" if fails else "silent",
        "rules": sorted({f.rule for f in fails}),
        "reports": [f"{f.where()} {f.rule} {f.construct}: {f.detail}"[:260] for f in fails[:4]],
    }


# stored refactorings a check cannot yet follow (documented in DESIGN.md 10.9): reported in the evidence, not failing the self-test
KNOWN_UNDECIDED = {
    "C09": {"r6set2_5": "same"},
    "C17": {"r6set3_5": "event x action loop replaced by one lax.scan over events with the update vmapped over actions", "r6set4_8": "one broadcast scatter-add per event",
            "set4_8": "flatten - single vmap - unflatten of the [S, A, E] successor array is outside the kernel IR's reshape vocabulary",
            "r2set4_2": "one broadcast scatter per event (index arrays [1, A] x [S, 1] x [S, A]) instead of the event x action double loop",
            "r5set4_2": "one loop over rows laid out once as [E*A, S] (enumerate(zip(rows_by_event_and_action(..)))) instead of the event x action double loop"},
    "C02": {"r2set2_3": "history rows precomputed as a Python list and walked with enumerate(zip(rows, rows[1:])): no loop summary"},
    "C03": {"r6set2_5": "single-slot cache of the padding mask (`v = self._m; if v is None or v.shape != ..`): not provably a function of its validity test", "r6set4_1": "padding mask moved into BatchProcessor (summarised, not interpreted)",
            "r2set2_3": "same", "r4set4_2": "padding mask moved into a new BatchProcessor.padding_mask() method: the BatchProcessor is summarised, not interpreted"},
    "C06": {"r6set2_5": "same", "r6set4_1": "same",
            "r4set4_2": "same"},
    "C08": {"r4set4_2": "same"},
    "C07": {"r2set2_3": "same"},
    "C13": {"r6set3_1": "same", "r6set3_6": "same",
            "r5set4_1": "create_range_space fills a preallocated array from np.meshgrid views in a loop over enumerate(grids): another enumeration algorithm",
            "r5set5_1": "Mirjalili delivery splits built one age class at a time by a nested comprehension instead of filtering the Cartesian product: another enumeration algorithm"},
    "C14": {"r6set3_3": "same", "r6set3_1": "Hendrix pu table built by loops with `continue`: no loop summary", "r6set3_6": "Mirjalili receipt splits enumerated directly by a nested comprehension: another enumeration algorithm",
            "r5set4_1": "same", "r5set5_1": "same"},
    "C15": {"r6set3_1": "same", "r6set3_6": "same",
            "r5set4_1": "same", "r5set5_1": "same"},
    "C16": {"r6set3_1": "same", "r6set3_6": "same",
            "r5set4_1": "same", "r5set5_1": "same"},
    "C19": {"r5set4_1": "same"},
    "C20": {"r6set1_3": "level names looked up in a module-level MappingProxyType with a walrus: no literal table inside the method", "r6set2_3": "Verbosity IntEnum and `match level: case str()`: no literal table to read", "r6set4_2": "Verbosity IntEnum, range guard `min(Verbosity) <= v <= max(Verbosity)`: no literal bounds", "r6set3_3": "validator guard `len(x) != len(Weekday)` (an Enum's size) is outside the guard shapes the reader knows",
            "r4set3_1": "verbosity tables replaced by one IntEnum (`_Verbosity(v).name`, `_Verbosity.__members__.get(name)`): no literal table to read"},
}


def run_selftest(prop: str, repo: Repo, quiet=False):
    from .mutants import BENIGN, MUTANTS

    t0 = time.time()
    muts = [m for m in MUTANTS if m["prop"] == prop]
    bens = [b for b in BENIGN if prop in b["props"]]
    from .seeds import benign_patch_variants, seed_variants

    seeds = seed_variants(prop, repo.root)
    bpatches = benign_patch_variants(repo.root)
    jobs = [(str(repo.root), m, prop) for m in muts] + [(str(repo.root), b, prop) for b in bens] + [(str(repo.root), sd, prop) for sd in seeds] \
        + [(str(repo.root), bp, prop) for bp in bpatches]
    workers = min(16, max(1, len(jobs)), os.cpu_count() or 1)
    results = []
    if jobs:
        with ProcessPoolExecutor(max_workers=workers) as ex:
            results = list(ex.map(run_variant, jobs))
    out = {"mutants": [], "benign": [], "wall_s": 0.0}
    rc = 0
    for m, r in zip(muts, results[: len(muts)]):
        want = m["rule"] if isinstance(m["rule"], list) else [m["rule"]]
        okk = r["status"] == "fired" and any(w in r.get("rules", []) for w in want)
        if r["status"] == "selftest-skipped":
            verdict = "selftest-skipped"
        elif okk:
            verdict = "detected"
        else:
            verdict = "MISSED"
            rc = 2
        out["mutants"].append({"id": m["id"], "expected_rule": m["rule"], "edit": m.get("note", ""),
                               "verdict": verdict, **{k: v for k, v in r.items() if k not in ("id",)}})
        if not quiet and verdict != "detected":
            print(f"  selftest {m['id']}: {verdict} ({r.get('why', r.get('rules'))})")
    out["seeded"] = []
    for sd, r in zip(seeds, results[len(muts) + len(bens):]):
        verdict = "selftest-skipped" if r["status"] == "selftest-skipped" else "detected" if r["status"] == "fired" else "MISSED"
        if verdict == "MISSED":
            rc = 2
            if not quiet:
                print(f"  selftest {sd['seed']}: MISSED ({r.get('why', '')})")
        out["seeded"].append({"id": sd["seed"], "verdict": verdict, "rules": r.get("rules", [])})
    out["benign_patches"] = []
    for bp, r in zip(bpatches, results[len(muts) + len(bens) + len(seeds):]):
        verdict = "selftest-skipped" if r["status"] == "selftest-skipped" else "silent" if r["status"] == "silent" else \
            "FALSE-ALARM" if r["status"] == "fired" else "ANALYSIS-ERROR"
        if bp["id"] in KNOWN_UNDECIDED.get(prop, {}) and verdict != "silent":
            verdict = "known-undecided"
        if verdict in ("FALSE-ALARM", "ANALYSIS-ERROR"):
            rc = 2
            if not quiet:
                print(f"  selftest {bp['id']}: {verdict} ({r.get('why', r.get('reports'))})")
        out["benign_patches"].append({"id": bp["id"], "verdict": verdict})
    for b, r in zip(bens, results[len(muts):len(muts) + len(bens)]):
        if r["status"] == "selftest-skipped":
            verdict = "selftest-skipped"
        elif r["status"] == "silent":
            verdict = "silent"
        else:
            verdict = "FALSE-ALARM" if r["status"] == "fired" else "ANALYSIS-ERROR"
            rc = 2
        out["benign"].append({"id": b["id"], "edit": b.get("note", ""), "verdict": verdict,
                              **{k: v for k, v in r.items() if k not in ("id",)}})
        if not quiet and verdict != "silent":
            print(f"  selftest {b['id']}: {verdict} ({r.get('why', r.get('reports'))})")
    # whole-tree behaviour-preserving transformations must leave the check silent
    from .metamorphic import TRANSFORMS, run_transform

    mjobs = [(t, prop, str(repo.root)) for t in TRANSFORMS]
    with ProcessPoolExecutor(max_workers=min(16, len(mjobs))) as ex:
        mres = list(ex.map(run_transform, mjobs))
    out["metamorphic"] = [{"transformation": t, "verdict": st, "why": why} for t, _p, st, why in mres]
    for t, _p, st, why in mres:
        if st != "silent":
            rc = 2
            if not quiet:
                print(f"  selftest metamorphic {t}: {st} ({why})")
    out["wall_s"] = round(time.time() - t0, 2)
    out["summary"] = {
        "mutants": len(muts),
        "detected": sum(1 for x in out["mutants"] if x["verdict"] == "detected"),
        "missed": sum(1 for x in out["mutants"] if x["verdict"] == "MISSED"),
        "skipped": sum(1 for x in out["mutants"] + out["benign"] + out["seeded"] if x["verdict"] == "selftest-skipped"),
        "stored_seeds": len(out["seeded"]),
        "benign_patches": len(out["benign_patches"]),
        "benign_patches_silent": sum(1 for x in out["benign_patches"] if x["verdict"] == "silent"),
        "stored_seeds_detected": sum(1 for x in out["seeded"] if x["verdict"] == "detected"),
        "benign": len(bens),
        "benign_silent": sum(1 for x in out["benign"] if x["verdict"] == "silent"),
        "metamorphic": len(mres),
        "metamorphic_silent": sum(1 for x in mres if x[2] == "silent"),
    }
    if not quiet:
        s = out["summary"]
        print(f"  selftest {prop}: {s['stored_seeds_detected']}/{s['stored_seeds']} stored independent seeds detected, {s['detected']}/{s['mutants']} seeded variants detected, {s['benign_patches_silent']}/{s['benign_patches']} independent refactorings silent, "
              f"{s['benign_silent']}/{s['benign']} benign variants silent, {s['metamorphic_silent']}/{s['metamorphic']} whole-tree transformations silent, "
              f"{s['skipped']} skipped, {out['wall_s']} s")
    return out, rc
