"""Term-level views of the solvers shared by several rule sets: thresholds, measures,
sweep kernels, step results."""

from __future__ import annotations

from ..classes import ClassInfo
from ..interp import Frame, Interp, solver_facts
from ..loader import AnalysisError
from ..terms import K, S, T_add, T_ite, T_cmp, T_mul, T_sub, T_truediv, alpha_norm, show_norm

EPS = S("EPS")
GAMMA = S("GAMMA")
VALUES = S("VALUES")

CONV_TESTS = ("span", "max_diff")
# solvers whose configuration has a `convergence_test` field (frozen after reading)
HAS_CONV_TEST = {"ValueIteration", "PolicyIteration", "SemiAsyncValueIteration"}


def documented_threshold(cls_name: str):
    """C08: epsilon*(1-gamma)/gamma for the discounted span and max_diff tests, epsilon when
    gamma is 1 and for relative and periodic value iteration."""
    if cls_name in ("RelativeValueIteration", "PeriodicValueIteration"):
        return EPS
    disc = T_truediv(T_mul(EPS, T_sub(K(1), GAMMA)), GAMMA)
    return T_ite(T_cmp("NotEq", GAMMA, K(1)), disc, EPS)


def solver_interp(ctx, cls: ClassInfo, conv_test: str = "span", shuffle: bool = False,
                  extra_facts=None, setup=True) -> Interp:
    facts = solver_facts({"batch_order": ("const", None), "inverse_order": ("const", None)})
    facts.update(extra_facts or {})
    I = Interp(
        ctx.ct,
        cls,
        facts,
        obj_attrs={
            ("config", "convergence_test"): ("const", conv_test),
            ("config", "shuffle_states"): ("const", shuffle),
        },
    )
    if setup:
        I.call_method("_setup_jax_functions")
        I.call_method("_setup_convergence_testing")
    return I


def eval_in(I: Interp, owner, fn, expr, env=None):
    e = {"self": ("self",)}
    e.update(env or {})
    return I.ev(expr, e, Frame(owner, owner.module, fn))


def span_of(I: Interp, new, old):
    delta = I.arith("Sub", new, old)
    return I.arith("Sub", I.reduce("max", delta), I.reduce("min", delta))


def maxdiff_of(I: Interp, new, old):
    delta = I.arith("Sub", new, old)
    return I.reduce("max", I.pointwise("abs", [delta]))


def same(a, b) -> bool:
    if alpha_norm(a) == alpha_norm(b):
        return True
    from ..terms import case_equal, vnorm
    va, vb = alpha_norm(vnorm(a)), alpha_norm(vnorm(b))
    if va == vb or case_equal(va, vb):
        return True
    from ..terms import subterms
    unk = sorted({t[1][1:] for x in (a, b) for t in subterms(x) if t[0] == "app" and isinstance(t[1], str) and t[1].startswith("?")})
    if unk:
        raise AnalysisError(f"a term identity cannot be decided: the code calls {unk}, for which the analyser has no model "
                            "(neither equality nor difference with the documented form can be shown)")
    return False


def brief(t, n=200) -> str:
    s = show_norm(t)
    return s if len(s) <= n else s[: n - 3] + "..."


def elementwise_same(I, a, b) -> bool:
    """a == b as vectors: identical terms, or equal element by element (`[i -> f(i)]` against a pointwise ring
    expression of vectors, `tuple(int(d) for d in dims)` against `dims`)."""
    if same(a, b):
        return True
    from ..interp import fresh
    from ..terms import subst

    if a[0] != "lam" and b[0] != "lam":
        return False
    tag = a[2] if a[0] == "lam" else b[2]
    i = fresh(tag)

    def at(t):
        e = subst(t[3], {t[1]: i}) if t[0] == "lam" else ("elem", t, (i,))
        for _round in range(4):
            m = {}
            from ..terms import subterms
            for x in subterms(e):
                if x[0] == "elem" and x[2] == (i,) and x[1][0] == "poly":
                    atoms = {a_ for mono, _c in x[1][1] for a_, _p in mono}
                    m[x] = subst(x[1], {a_: ("elem", a_, (i,)) for a_ in atoms})
            if not m:
                break
            e = subst(e, m)
        return e

    return same(at(a), at(b))
